"""Shared engine of C16 (packet framing) and the packet part of C04: header byte-layout model,
Packetizer / Depacketizer / loop-back / PacketFIFO / Arbiter / Dispatcher benches."""
from migen import *

from litex.soc.interconnect import stream, packet

from lib.collect import rng_for, h
from lib.bench.kernel import Bench
from lib.bench.stream import (SourceDriver, SinkDriver, EndpointMonitor, Scoreboard, make_sched, Then, tok_of)
from props.streamsel import SelDriver


# ------------------------------------------------------------------------------------ header model
def gen_header(rng, dw):
    """Random header definition: byte-aligned big fields (multiples of 8 bits) and sub-byte fields."""
    bpc = dw // 8
    kind = rng.choice(["aligned", "unaligned", "unaligned", "short", "long"])
    if kind == "aligned":
        length = bpc * rng.randint(1, 3)
    elif kind == "short":
        length = rng.randint(1, max(1, bpc - 1)) if bpc > 1 else 1
    elif kind == "long":
        length = rng.randint(2 * bpc + 1, 4 * bpc + 3)
    else:
        length = rng.randint(bpc + 1, 3 * bpc + 2)
    length = max(1, min(length, 40))
    fields = {}
    byte = 0
    i = 0
    while byte < length:
        r = rng.random()
        if r < 0.25:
            byte += 1          # reserved byte
            continue
        if r < 0.5:            # sub-byte fields inside one byte
            off = 0
            while off < 8 and rng.random() < 0.8:
                w = rng.randint(1, 8 - off)
                fields["f%d" % i] = [byte, off, w]
                i += 1
                off += w + rng.choice([0, 0, 1])
            byte += 1
            continue
        nb = rng.choice([1, 2, 2, 3, 4, 4, 6, 8])
        nb = min(nb, length - byte)
        fields["f%d" % i] = [byte, 0, 8 * nb]
        i += 1
        byte += nb
    if not fields:
        fields["f0"] = [0, 0, 8]
    return {"length": length, "fields": fields, "swap": rng.random() < 0.7, "dw": dw}


def mk_header(hd):
    return packet.Header({k: packet.HeaderField(*v) for k, v in hd["fields"].items()}, hd["length"],
                         swap_field_bytes=hd["swap"])


def header_bytes(hd, values):
    """Independent byte-layout model: field at bit byte*8+offset; multi-byte fields in network
    (big-endian) order when swap_field_bytes, little-endian otherwise; other bits zero."""
    buf = 0
    for k, (byte, off, w) in hd["fields"].items():
        v = values[k] & ((1 << w) - 1)
        if hd["swap"] and w > 8:
            assert w % 8 == 0
            v = int.from_bytes(v.to_bytes(w // 8, "big"), "little")
        buf |= v << (byte * 8 + off)
    return [(buf >> (8 * i)) & 0xff for i in range(hd["length"])]


def header_values(hd, hbytes):
    buf = sum(b << (8 * i) for i, b in enumerate(hbytes))
    out = {}
    for k, (byte, off, w) in hd["fields"].items():
        v = (buf >> (byte * 8 + off)) & ((1 << w) - 1)
        if hd["swap"] and w > 8:
            v = int.from_bytes(v.to_bytes(w // 8, "little"), "big")
        out[k] = v
    return out


def frame_words(hd, values, payload):
    """(word, mask) list of the framed packet: header bytes then payload bytes, little-endian lanes."""
    bpc = hd["dw"] // 8
    bs = header_bytes(hd, values)
    for w in payload:
        bs += [(w >> (8 * i)) & 0xff for i in range(bpc)]
    words = []
    for j in range(0, len(bs), bpc):
        chunk = bs[j:j + bpc]
        words.append((sum(b << (8 * i) for i, b in enumerate(chunk)), (1 << (8 * len(chunk))) - 1))
    return words


def descs(hd):
    names = sorted(hd["fields"])
    user = stream.EndpointDescription([("data", hd["dw"])], [(k, hd["fields"][k][2]) for k in names])
    raw = stream.EndpointDescription([("data", hd["dw"])], [])
    return user, raw, names


def gen_packets(rng, hd, npk, names):
    pk = []
    for i in range(npk):
        vals = {k: rng.getrandbits(hd["fields"][k][2]) for k in names}
        nb = rng.choice([1, 1, 2, 3, 4, 5, 8, 13])
        pk.append((vals, [rng.getrandbits(hd["dw"]) for _ in range(nb)]))
    return pk


def user_tokens(pk, names, rng=None, wild_first=False):
    toks = []
    for vals, payload in pk:
        par = tuple(vals[k] for k in names)
        for i, w in enumerate(payload):
            toks.append({"first": int(i == 0), "last": int(i == len(payload) - 1), "pay": (w,), "par": par})
    return toks


# ------------------------------------------------------------------------------------ cases
def cases(tier, seed, prop):
    per = {"quick": 24, "thorough": 200}[tier]
    out = []
    for dw in (8, 16, 32, 64, 128):
        for kind in ("packetizer", "depacketizer", "loopback"):
            for k in range(per):
                out.append({"el": kind, "cfg": {"dw": dw}, "seed": "%d/%s/%s/%d/%d" % (seed, prop, kind, dw, k)})
    for depth, pdepth, buf in [(2, None, False), (4, 1, False), (8, 2, True), (16, None, False), (3, 1, False)]:
        for k in range(per * 2):
            out.append({"el": "packetfifo", "cfg": {"depth": depth, "pdepth": pdepth, "buffered": buf},
                        "seed": "%d/%s/pfifo/%d/%d" % (seed, prop, depth, k)})
    for n in (1, 2, 3, 4):
        for k in range(per):
            out.append({"el": "arbiter", "cfg": {"n": n}, "seed": "%d/%s/arb/%d/%d" % (seed, prop, n, k)})
            out.append({"el": "dispatcher", "cfg": {"n": n, "one_hot": bool(k & 1)},
                        "seed": "%d/%s/disp/%d/%d" % (seed, prop, n, k)})
    return out


def _cmp_words(expected, log, what):
    for i, ((w, m, last), l) in enumerate(zip(expected, log)):
        if (l[3][0] ^ w) & m:
            return {"beat": i, "field": "data", "expected": hex(w), "mask": hex(m), "got": hex(l[3][0]), "what": what}
        if l[2] != last:
            return {"beat": i, "field": "last", "expected": last, "got": l[2], "what": what}
    if len(log) > len(expected):
        return {"beat": len(expected), "field": "extra-beat", "what": what}
    return None


def run_case(case):
    el = case["el"]
    if el in ("packetizer", "depacketizer", "loopback"):
        return run_framing(case)
    if el == "packetfifo":
        return run_packetfifo(case)
    if el == "arbiter":
        return run_arbiter(case)
    if el == "dispatcher":
        return run_dispatcher(case)
    raise ValueError(el)


def _finish(bench, ok, oms, sb, extra):
    r = {"capped": not ok, "cycles": bench.cycle["sys"], "stall": sb.stalled if sb else None,
         "stability": [x for m in oms for x in m.stab_viol][:3],
         "stalled_cycles": sum(m.stalled_cycles for m in oms),
         "delivered": sum(len(m.log) for m in oms), "data": None}
    r.update(extra)
    return r


def run_framing(case):
    rng = rng_for(case["seed"])
    hd = case.get("hd") or gen_header(rng, case["cfg"]["dw"])
    header = mk_header(hd)
    user, raw, names = descs(hd)
    npk = case.get("npk", 6)
    pk = gen_packets(rng, hd, npk, names)
    el = case["el"]
    hostile = rng.randint(30, 300)
    vs, vk = make_sched(rng)
    rs, rk = make_sched(rng)
    top = Module()
    if el == "packetizer":
        dut = packet.Packetizer(user, raw, header)
        top.submodules += dut
        sink, source = dut.sink, dut.source
        toks = user_tokens(pk, names)
    elif el == "depacketizer":
        dut = packet.Depacketizer(raw, user, header)
        top.submodules += dut
        sink, source = dut.sink, dut.source
        toks = []
        for vals, payload in pk:
            ws = frame_words(hd, vals, payload)
            for i, (w, m) in enumerate(ws):
                w |= rng.getrandbits(hd["dw"]) & ~m          # garbage in the unused lanes of the residue
                toks.append({"first": int(i == 0), "last": int(i == len(ws) - 1), "pay": (w,), "par": ()})
    else:
        p = packet.Packetizer(user, raw, header)
        d = packet.Depacketizer(raw, user, header)
        mid = case["cfg"].get("mid", rng.choice(["direct", "fifo", "pipevalid"]))
        top.submodules += p, d
        if mid == "fifo":
            f = stream.SyncFIFO(raw, 4)
            top.submodules += f
            top.comb += [p.source.connect(f.sink), f.source.connect(d.sink)]
        elif mid == "pipevalid":
            f = stream.PipeValid(raw)
            top.submodules += f
            top.comb += [p.source.connect(f.sink), f.source.connect(d.sink)]
        else:
            top.comb += p.source.connect(d.sink)
        sink, source = p.sink, d.source
        toks = user_tokens(pk, names)
    nbeats_in = len(toks)
    bench = Bench(top, cap=hostile + 60 * nbeats_in + 2000)
    bench.track_states = True
    drv = bench.add(SourceDriver(sink, toks, Then(vs, hostile), rng))
    bench.add(SinkDriver(source, Then(rs, hostile)))
    im = bench.add(EndpointMonitor(sink, "sink"))
    mask = None
    if el == "packetizer" and hd["length"] % (hd["dw"] // 8):
        # residue beat (last=1) of an unaligned header: only the low header_leftover bytes carry data,
        # the upper lanes are don't-care
        lo = (1 << (8 * (hd["length"] % (hd["dw"] // 8)))) - 1

        def mask(t):
            return (t[0], t[1], (t[2][0] & lo,), t[3]) if t[1] else t
    om = bench.add(EndpointMonitor(source, "source", check_stability=True, mask=mask))
    # expected output
    if el == "packetizer":
        expected = []
        for vals, payload in pk:
            ws = frame_words(hd, vals, payload)
            expected += [(w, m, int(i == len(ws) - 1)) for i, (w, m) in enumerate(ws)]
        nexp = len(expected)
    else:
        nexp = sum(len(p_[1]) for p_ in pk)
    sb = bench.add(Scoreboard([drv], [im], [om], lambda: nexp, coop_from=hostile + 2,
                              stall_bound=40 + 4 * (hd["length"] * 8 // hd["dw"] + 2)))
    ok = bench.run()
    data = None
    if el == "packetizer":
        data = _cmp_words(expected, om.log, "packetizer output vs header byte layout")
    else:
        i = 0
        for pi, (vals, payload) in enumerate(pk):
            par = tuple(vals[k] for k in names)
            for bi, w in enumerate(payload):
                if i >= len(om.log):
                    break
                l = om.log[i]
                if l[3][0] != w:
                    data = {"packet": pi, "beat": bi, "field": "data", "expected": hex(w), "got": hex(l[3][0])}
                elif l[2] != int(bi == len(payload) - 1):
                    data = {"packet": pi, "beat": bi, "field": "last", "expected": int(bi == len(payload) - 1), "got": l[2]}
                elif tuple(l[4]) != par:
                    data = {"packet": pi, "beat": bi, "field": "header-field",
                            "expected": dict(zip(names, par)), "got": dict(zip(names, l[4]))}
                if data:
                    break
                i += 1
            if data:
                break
        if data is None and len(om.log) > nexp:
            data = {"field": "extra-beat", "beat": nexp}
    missing = nexp - len(om.log)
    return _finish(bench, ok, [om], sb, {"data": data, "missing": max(0, missing), "hd": hd, "sched": [vk, rk],
                                         "accepted": len(im.log), "states": len(bench.states_seen),
                                         "hdr_kind": "aligned" if hd["length"] % (hd["dw"] // 8) == 0 else
                                         ("short" if hd["length"] < hd["dw"] // 8 else "unaligned"),
                                         "packets": npk})


class ReleaseMonitor:
    """PacketFIFO: a beat of packet k may be *offered* on source only after the last beat of packet k
    has been accepted on sink."""
    def __init__(self, sink, source):
        self.sink, self.source = sink, source
        self.in_lasts = 0
        self.out_lasts = 0
        self.errs = []
        self.checks = 0

    def signals(self):
        s, d = self.sink, self.source
        return [s.valid, s.ready, s.last, d.valid, d.ready, d.last]

    def step(self, v, c):
        s, d = self.sink, self.source
        if v[d.valid]:
            self.checks += 1
            if self.in_lasts <= self.out_lasts:
                self.errs.append({"cycle": c, "offered_packet": self.out_lasts, "complete_packets_in": self.in_lasts})
            if v[d.ready] and v[d.last]:
                self.out_lasts += 1
        if v[s.valid] and v[s.ready] and v[s.last]:
            self.in_lasts += 1
        return None


def run_packetfifo(case):
    rng = rng_for(case["seed"])
    cfg = case["cfg"]
    d = stream.EndpointDescription([("data", 16)], [("p", 5), ("q", 3)])
    dut = packet.PacketFIFO(d, cfg["depth"], cfg["pdepth"], cfg["buffered"])
    npk = case.get("npk", 10)
    toks = []
    maxlen = max(1, cfg["depth"] - (1 if cfg["buffered"] else 0))
    for i in range(npk):
        # a packet longer than the payload FIFO can never be released: lengths stay within the depth
        nb = rng.choice([1, 1, 2, maxlen, max(1, maxlen - 1), rng.randint(1, maxlen)])
        par = (rng.getrandbits(5), rng.getrandbits(3))
        for b in range(nb):
            toks.append({"first": int(b == 0), "last": int(b == nb - 1), "pay": ((i << 8) | b,), "par": par})
    hostile = rng.randint(30, 400)
    vs, vk = make_sched(rng, ratio=cfg["depth"])
    rs, rk = make_sched(rng, ratio=cfg["depth"])
    bench = Bench(dut, cap=hostile + 60 * len(toks) + 1000)
    bench.track_states = True
    drv = bench.add(SourceDriver(dut.sink, toks, Then(vs, hostile), rng))
    bench.add(SinkDriver(dut.source, Then(rs, hostile)))
    im = bench.add(EndpointMonitor(dut.sink, "sink"))
    om = bench.add(EndpointMonitor(dut.source, "source", check_stability=True))
    rm = bench.add(ReleaseMonitor(dut.sink, dut.source))
    sb = bench.add(Scoreboard([drv], [im], [om], lambda: len(im.log), coop_from=hostile + 2,
                              stall_bound=30 + 2 * cfg["depth"]))
    ok = bench.run()
    data = None
    for i, (a, b) in enumerate(zip(im.log, om.log)):
        ta, tb = tok_of(a), tok_of(b)
        ta.pop("first"), tb.pop("first")       # first is not stored by the payload FIFO of every variant
        if ta != tb:
            fld = "param" if ta["par"] != tb["par"] else ("last" if ta["last"] != tb["last"] else "data")
            data = {"beat": i, "field": fld, "accepted": ta, "delivered": tb}
            break
    if data is None and len(om.log) > len(im.log):
        data = {"field": "extra-beat", "beat": len(im.log)}
    if data is None and rm.errs:
        data = {"field": "released-before-complete", "detail": rm.errs[0]}
    return _finish(bench, ok, [om], sb, {"data": data, "missing": len(im.log) - len(om.log), "sched": [vk, rk],
                                         "accepted": len(im.log), "states": len(bench.states_seen),
                                         "release_checks": rm.checks, "packets": npk})


def _pk_tokens(rng, src, npk, dw=16):
    toks = []
    for i in range(npk):
        nb = rng.choice([1, 2, 3, 5, 8])
        for b in range(nb):
            toks.append({"first": int(b == 0), "last": int(b == nb - 1),
                         "pay": (((src & 3) << 12) | ((i & 0x3f) << 6) | b,), "par": (rng.getrandbits(4) if False else (src * 5 + i) & 15,)})
    return toks


def run_arbiter(case):
    rng = rng_for(case["seed"])
    n = case["cfg"]["n"]
    d = lambda: stream.EndpointDescription([("data", 16)], [("p", 4)])
    masters = [stream.Endpoint(d()) for _ in range(n)]
    slave = stream.Endpoint(d())
    top = Module()
    top.submodules.arb = packet.Arbiter(list(masters), slave)
    hostile = rng.randint(50, 500)
    bench = Bench(top, cap=hostile + 3000)
    drvs, ims = [], []
    for i, m in enumerate(masters):
        toks = _pk_tokens(rng, i, rng.randint(3, 7))
        sch, _ = make_sched(rng)
        drvs.append(bench.add(SourceDriver(m, toks, Then(sch, hostile), rng)))
        ims.append(bench.add(EndpointMonitor(m, "m%d" % i)))
    rs, rk = make_sched(rng)
    bench.add(SinkDriver(slave, Then(rs, hostile)))
    om = bench.add(EndpointMonitor(slave, "slave", check_stability=True))
    tot = sum(len(x.tokens) for x in drvs)
    sb = bench.add(Scoreboard(drvs, ims, [om], lambda: tot, coop_from=hostile + 2, stall_bound=40))
    ok = bench.run()
    data = None
    # per-cycle pairing
    inl = [{e[0]: e for e in m.log} for m in ims]
    for e in om.log:
        srcs = [i for i, dct in enumerate(inl) if e[0] in dct]
        if len(srcs) != 1 or tok_of(inl[srcs[0]][e[0]]) != tok_of(e):
            data = {"field": "beat-not-from-exactly-one-master", "cycle": e[0], "masters": srcs, "delivered": tok_of(e)}
            break
    nin = sum(len(m.log) for m in ims)
    if data is None and nin != len(om.log):
        data = {"field": "beat-count", "accepted": nin, "delivered": len(om.log)}
    # atomicity: between first and last only one master
    if data is None:
        cur = None
        npkts = 0
        for e in om.log:
            src = (e[3][0] >> 12) & 3
            if cur is None:
                cur = src
                if not e[1]:
                    data = {"field": "packet-does-not-start-with-first", "cycle": e[0]}
                    break
            elif src != cur:
                data = {"field": "interleaved", "cycle": e[0], "packet_of": cur, "beat_of": src}
                break
            if e[2]:
                cur = None
                npkts += 1
    return _finish(bench, ok, [om], sb, {"data": data, "missing": tot - len(om.log), "sched": ["-", rk],
                                         "accepted": nin, "packets": sum(1 for e in om.log if e[2]), "states": 0})


def run_dispatcher(case):
    rng = rng_for(case["seed"])
    n, one_hot = case["cfg"]["n"], case["cfg"]["one_hot"]
    d = lambda: stream.EndpointDescription([("data", 16)], [("p", 4)])
    master = stream.Endpoint(d())
    slaves = [stream.Endpoint(d()) for _ in range(n)]
    top = Module()
    top.submodules.disp = disp = packet.Dispatcher(master, list(slaves), one_hot=one_hot)
    hostile = rng.randint(50, 500)
    toks = _pk_tokens(rng, 0, rng.randint(6, 14))
    bench = Bench(top, cap=hostile + 3000)
    vs, vk = make_sched(rng)
    drv = bench.add(SourceDriver(master, toks, Then(vs, hostile), rng))
    im = bench.add(EndpointMonitor(master, "master"))
    oms = []
    for i, s in enumerate(slaves):
        rs, _ = make_sched(rng)
        bench.add(SinkDriver(s, Then(rs, hostile)))
        oms.append(bench.add(EndpointMonitor(s, "s%d" % i, check_stability=True)))
    trivial = (n == 1 and not one_hot)
    if one_hot:
        selvals = [1 << i for i in range(n)]
    else:
        selvals = list(range(n))
    sd = None
    if not trivial:
        # selector values that designate no slave (binary: beyond the last slave; one-hot: no bit or several bits): the documented
        # default drains such packets (master.ready = 1), so tokens keep moving and nothing reaches a slave
        nosel = [x for x in range(1 << len(disp.sel)) if x not in selvals]
        # (the selector is also held while a beat is stalled at the master: a producer that derives it from the packet holds it with the token)
        sd = bench.add(SelDriver(disp.sel, selvals * 3 + nosel[:3], rng, list(slaves) + [master], p=0.2))

    def expected():
        dest, cnt = "unset", 0
        for e in im.log:
            if trivial:
                cnt += 1
                continue
            if e[0] >= len(sd.hist):
                break
            if dest == "unset":
                dest = sd.hist[e[0]] in selvals
            cnt += int(dest)
            if e[2]:
                dest = "unset"
        return cnt + (len(toks) - len(im.log))        # beats not yet accepted are still expected (their destination is not known yet)
    sb = bench.add(Scoreboard([drv], [im], oms, expected, coop_from=hostile + 2, stall_bound=40))
    ok = bench.run()
    data = None
    outl = [{e[0]: e for e in m.log} for m in oms]
    dest = "unset"
    dests = set()
    for e in im.log:
        c = e[0]
        tgt = [i for i, dct in enumerate(outl) if c in dct]
        if trivial:
            want = 0
        else:
            s = sd.hist[c]
            if dest == "unset":           # first beat of a packet: destination = sel in this cycle
                dest = selvals.index(s) if s in selvals else None
            want = dest
            if e[2]:
                dest = "unset"
        if want is None:
            # unmapped selector value: the packet is dropped (documented default: ready=1)
            if tgt:
                data = {"field": "beat-delivered-for-unmapped-sel", "cycle": c}
                break
        elif tgt != [want]:
            data = {"field": "destination-changed-or-wrong", "cycle": c, "expected_slave": want, "delivered_to": tgt,
                    "beat": tok_of(e)}
            break
        elif tok_of(outl[want][c]) != tok_of(e):
            data = {"field": "altered", "cycle": c, "accepted": tok_of(e), "delivered": tok_of(outl[want][c])}
            break
        dests.add(want)
    nout = sum(len(m.log) for m in oms)
    if data is None and nout > len(im.log):
        data = {"field": "extra-beat"}
    dropped = len(im.log) - (expected() - (len(toks) - len(im.log)))
    return _finish(bench, ok, oms, sb, {"data": data, "missing": (len(toks) - dropped - nout) if data is None else 0, "dropped_unmapped": dropped,
                                        "sched": [vk, "-"], "accepted": len(im.log), "states": 0,
                                        "sel_changes": sd.changes if sd else 0, "dests": len(dests),
                                        "packets": sum(1 for e in im.log if e[2])})


def judge(col, case, r, prop):
    el = case["el"]
    col.ev("histories")
    col.ev("sim_cycles", r["cycles"])
    col.ev("packets", r.get("packets", 0))
    col.ev("beats_delivered", r["delivered"])
    col.ev("stalled_cycles_observed", r["stalled_cycles"])
    col.ev("stability_checks", r["stalled_cycles"])
    col.ev("coop_switch_states")
    if "release_checks" in r:
        col.ev("release_checks", r["release_checks"])
    if "sel_changes" in r:
        col.ev("selector_changes", r["sel_changes"])
    if "dropped_unmapped" in r:
        col.ev("dispatcher_beats_with_selector_designating_no_slave", r["dropped_unmapped"])
    if "hdr_kind" in r:
        col.cov("header_kinds", "%s/dw%d/%s" % (el, case["cfg"]["dw"], r["hdr_kind"]))
        col.cov("header_defs", h(r["hd"]))
    col.cov("configs", h([el, case["cfg"]]))
    if r["capped"]:
        col.inconc(case, "cycle cap reached")
    sub = ""
    if "hdr_kind" in r:
        sub = "/" + r["hdr_kind"]
    if prop == "C16":
        if r["data"]:
            col.violation("%s%s/%s" % (el, sub, r["data"].get("field")), case,
                          "%s cfg=%s: %s" % (el, case["cfg"], r["data"]), {"mismatch": r["data"], "hd": r.get("hd")})
        elif r["stall"] and r.get("missing", 0) > 0:
            col.violation("%s%s/beats-never-delivered" % (el, sub), case,
                          "%s cfg=%s: %d expected beats never delivered, no movement in the cooperative suffix (%s)"
                          % (el, case["cfg"], r["missing"], r["stall"]), {"hd": r.get("hd"), "run": {k: r[k] for k in ("accepted", "delivered", "sched")}})
    else:
        for s in r["stability"][:1]:
            col.violation("%s%s/%s" % (el, sub, s["kind"]), case, "%s cfg=%s: %s" % (el, case["cfg"], s),
                          {"stability": r["stability"], "hd": r.get("hd")})
        if r["stall"] and r.get("missing", 0) > 0:
            col.violation("%s%s/stall" % (el, sub), case,
                          "%s cfg=%s: no movement for the progress bound in the cooperative suffix with %d beats expected (%s)"
                          % (el, case["cfg"], r["missing"], r["stall"]), {"hd": r.get("hd")})
    nontriv = r["delivered"] >= 4 and (r["stalled_cycles"] >= 1 if prop == "C04" else True)
    col.case_done(case, nontriv, sample={"case": case, "header": r.get("hd"), "schedules": r.get("sched"),
                                         "accepted_beats": r["accepted"], "delivered_beats": r["delivered"],
                                         "packets": r.get("packets")})
