"""Shared engine of C03 (exactly once / in order / rightly transformed) and C04 (stability,
bounded progress): element catalogue, executable transfer functions, one-history runner.

A case is a JSON dict {"el": name, "cfg": {...}, "seed": str, "n": tokens, "mode": ...}; everything
random derives from case["seed"], so the case is its own replay."""
import itertools

from migen import *

from litex.soc.interconnect import stream

from lib.collect import rng_for
from lib.bench.kernel import Bench
from lib.bench.stream import (SourceDriver, SinkDriver, EndpointMonitor, Scoreboard, make_sched,
                              Then, Always, Pattern, tok_of)

# ------------------------------------------------------------------------------------ helpers

LAYOUTS = {
    "d8":     ([("data", 8)], []),
    "d5":     ([("data", 5)], []),
    "d16p":   ([("data", 16)], [("dst", 3)]),
    "ab":     ([("a", 4), ("b", 7)], [("p", 2), ("q", 5)]),
    "abc":    ([("a", 1), ("b", 9), ("c", 3)], [("p", 4)]),
    "d32":    ([("data", 32)], [("id", 6)]),
}


def desc(name):
    pay, par = LAYOUTS[name]
    return stream.EndpointDescription(list(pay), list(par))


def widths(ep):
    return [len(s) for s in ep.payload.flatten()], [len(s) for s in ep.param.flatten()]


def gen_tokens(rng, ep, n, mode):
    """mode: 'packets' (well-formed first/last framing, early lasts), 'wild' (random first/last),
    'nolast' (no last at all), 'ones' (one-token packets)."""
    pw, qw = widths(ep)
    toks = []
    start = True
    par = tuple(rng.getrandbits(w) for w in qw)
    plen = rng.choice([1, 2, 3, 4, 5, 7, 8, 9, 16])
    for i in range(n):
        pay = []
        for j, w in enumerate(pw):
            x = rng.getrandbits(w)
            if j == 0 and w >= 6:
                x = (x & ~0x3f) | (i & 0x3f)       # token counter in the low bits
            pay.append(x)
        if mode == "wild":
            first, last = rng.getrandbits(1), int(rng.random() < 0.3)
            if rng.random() < 0.5:
                par = tuple(rng.getrandbits(w) for w in qw)
        elif mode == "nolast":
            first, last = int(i == 0), 0
        elif mode == "ones":
            first, last = 1, 1
            par = tuple(rng.getrandbits(w) for w in qw)
        else:
            first = int(start)
            plen -= 1
            last = int(plen <= 0)
            start = bool(last)
            if last:
                plen = rng.choice([1, 2, 3, 4, 5, 7, 8, 9, 16])
        toks.append({"first": first, "last": last, "pay": tuple(pay), "par": par})
        if mode == "packets" and last:
            par = tuple(rng.getrandbits(w) for w in qw)
    return toks


def exp(first, last, pay, par, paymask=None):
    return {"first": first, "last": last, "pay": tuple(pay), "par": par, "paymask": paymask}


# ------------------------------------------------------------------------------------ models
def m_identity(toks):
    return [exp(t["first"], t["last"], t["pay"], t["par"]) for t in toks]


def groups(toks, ratio):
    g = []
    for t in toks:
        g.append(t)
        if len(g) == ratio or t["last"]:
            yield g
            g = []
    # leftover tokens stay inside the element (no last seen): nothing expected


def m_up_raw(toks, ratio, w, reverse, report_count):
    out = []
    for g in groups(toks, ratio):
        data, mask = 0, 0
        for i, t in enumerate(g):
            lane = ratio - i - 1 if reverse else i
            data |= t["pay"][0] << (lane * w)
            mask |= ((1 << w) - 1) << (lane * w)
        pay, pm = [data], [mask]
        if report_count:
            pay.append(len(g))
            pm.append(-1)
        out.append(exp(int(any(t["first"] for t in g)), int(any(t["last"] for t in g)), pay, None, pm))
    return out


def m_down_raw(toks, ratio, w, reverse, report_count):
    out = []
    for t in toks:
        for k in range(ratio):
            lane = ratio - k - 1 if reverse else k
            pay, pm = [(t["pay"][0] >> (lane * w)) & ((1 << w) - 1)], [-1]
            if report_count:
                pay.append(0)
                pm.append(0)     # valid_token_count of the down-converter is not documented: not checked
            out.append(exp(int(t["first"] and k == 0), int(t["last"] and k == ratio - 1), pay, None, pm))
    return out


def m_stride_up(toks, ratio, fw, reverse):
    """fw: field widths of the narrow side."""
    out = []
    for g in groups(toks, ratio):
        pay = [0] * len(fw)
        pm = [0] * len(fw)
        for i, t in enumerate(g):
            lane = ratio - i - 1 if reverse else i
            for f, w in enumerate(fw):
                pay[f] |= t["pay"][f] << (lane * w)
                pm[f] |= ((1 << w) - 1) << (lane * w)
        pars = set(t["par"] for t in g)
        # the class does not document whose params win inside a group: compared only when equal
        par = g[0]["par"] if len(pars) == 1 else None
        out.append(exp(int(any(t["first"] for t in g)), int(any(t["last"] for t in g)), pay, par, pm))
    return out


def m_stride_down(toks, ratio, fw, reverse):
    """fw: field widths of the narrow side."""
    out = []
    for t in toks:
        for k in range(ratio):
            lane = ratio - k - 1 if reverse else k
            pay = [(t["pay"][f] >> (lane * w)) & ((1 << w) - 1) for f, w in enumerate(fw)]
            out.append(exp(int(t["first"] and k == 0), int(t["last"] and k == ratio - 1), pay, t["par"]))
    return out


def m_pack(toks, n, nf, reverse):
    """output flat payload = chunk0 fields..., chunk{n-1} fields"""
    out = []
    for g in groups(toks, n):
        pay = [0] * (n * nf)
        pm = [0] * (n * nf)
        for i, t in enumerate(g):
            ch = n - i - 1 if reverse else i
            for f in range(nf):
                pay[ch * nf + f] = t["pay"][f]
                pm[ch * nf + f] = -1
        out.append(exp(int(any(t["first"] for t in g)), int(any(t["last"] for t in g)), pay,
                       g[-1]["par"] if len(set(t["par"] for t in g)) == 1 else None, pm))
    return out


def m_unpack(toks, n, nf, reverse):
    out = []
    for t in toks:
        for k in range(n):
            ch = n - k - 1 if reverse else k
            out.append(exp(int(t["first"] and k == 0), int(t["last"] and k == n - 1),
                           t["pay"][ch * nf:(ch + 1) * nf], t["par"]))
    return out


def m_cast(toks, wf, wt, rf, rt):
    out = []
    for t in toks:
        vals = list(zip(t["pay"], wf))
        if rf:
            vals = vals[::-1]
        bits, sh = 0, 0
        for x, w in vals:
            bits |= x << sh
            sh += w
        idx = list(range(len(wt)))
        if rt:
            idx = idx[::-1]
        pay = [0] * len(wt)
        for i in idx:
            pay[i] = bits & ((1 << wt[i]) - 1)
            bits >>= wt[i]
        out.append(exp(t["first"], t["last"], pay, None))
    return out


def m_gearbox(toks, i_dw, o_dw, msb_first):
    bits = []
    for t in toks:
        x = t["pay"][0]
        b = [(x >> k) & 1 for k in range(i_dw)]
        bits += b[::-1] if msb_first else b
    out = []
    for k in range(len(bits) // o_dw):
        b = bits[k * o_dw:(k + 1) * o_dw]
        if msb_first:
            b = b[::-1]
        out.append(exp(None, None, [sum(x << j for j, x in enumerate(b))], None))
    return out


# ------------------------------------------------------------------------------------ catalogue
class Setup:
    def __init__(self, dut, model, sink=None, source=None, ratio=1, bound=16, kind="chain"):
        self.dut, self.model, self.ratio, self.bound, self.kind = dut, model, ratio, bound, kind
        self.sink = sink if sink is not None else dut.sink
        self.source = source if source is not None else dut.source


def _top(*mods):
    m = Module()
    for x in mods:
        m.submodules += x
    return m


def b_pipevalid(cfg):
    return Setup(stream.PipeValid(desc(cfg["lay"])), m_identity, bound=6)


def b_pipeready(cfg):
    return Setup(stream.PipeReady(desc(cfg["lay"])), m_identity, bound=6)


def b_buffer(cfg):
    return Setup(stream.Buffer(desc(cfg["lay"]), pipe_valid=cfg["pv"], pipe_ready=cfg["pr"]), m_identity, bound=8)


def b_delay(cfg):
    return Setup(stream.Delay(desc(cfg["lay"]), cfg["n"]), m_identity, bound=8 + 2 * cfg["n"])


def b_syncfifo(cfg):
    return Setup(stream.SyncFIFO(desc(cfg["lay"]), cfg["depth"], buffered=cfg["buffered"]), m_identity,
                 ratio=max(2, cfg["depth"]), bound=10 + cfg["depth"])


def b_cdc_same(cfg):
    return Setup(stream.ClockDomainCrossing(desc(cfg["lay"]), "sys", "sys", buffered=cfg["buffered"]),
                 m_identity, bound=8)


def b_pipeline(cfg):
    d = desc(cfg["lay"])
    mods = []
    for k in cfg["stages"]:
        mods.append({"pv": lambda: stream.PipeValid(d), "pr": lambda: stream.PipeReady(d),
                     "f2": lambda: stream.SyncFIFO(d, 2), "f4b": lambda: stream.SyncFIFO(d, 4, buffered=True),
                     "b": lambda: stream.Buffer(d, True, True), "f0": lambda: stream.SyncFIFO(d, 0),
                     "f1": lambda: stream.SyncFIFO(d, 1)}[k]())
    p = stream.Pipeline(*mods)
    top = _top(p, *mods)
    return Setup(top, m_identity, sink=p.sink, source=p.source, ratio=4, bound=12 + 6 * len(mods))


def b_bufferize(cfg):
    d = desc(cfg["lay"])
    eps = {"sink": stream.DIR_SINK, "source": stream.DIR_SOURCE} if cfg["both"] else {"source": stream.DIR_SOURCE}
    m = stream.BufferizeEndpoints(eps, pipe_valid=cfg["pv"], pipe_ready=cfg["pr"])(stream.SyncFIFO(d, cfg["depth"]))
    return Setup(m, m_identity, ratio=4, bound=16 + cfg["depth"])


def b_cast(cfg):
    lf, lt = cfg["lf"], cfg["lt"]
    dut = stream.Cast([tuple(x) for x in lf], [tuple(x) for x in lt], cfg["rf"], cfg["rt"])
    wf, wt = [w for _, w in lf], [w for _, w in lt]
    return Setup(dut, lambda t: m_cast(t, wf, wt, cfg["rf"], cfg["rt"]), bound=4)


def b_converter(cfg):
    nf, nt, rev, rep = cfg["nf"], cfg["nt"], cfg["reverse"], cfg["report"]
    dut = stream.Converter(nf, nt, reverse=rev, report_valid_token_count=rep)
    if nf < nt:
        r = nt // nf
        return Setup(dut, lambda t: m_up_raw(t, r, nf, rev, rep), ratio=r, bound=8 + 2 * r)
    if nf > nt:
        r = nf // nt
        return Setup(dut, lambda t: m_down_raw(t, r, nt, rev, rep), ratio=r, bound=8 + 2 * r)

    def ident(t):
        return [exp(x["first"], x["last"], list(x["pay"]) + ([1] if rep else []), None) for x in t]
    return Setup(dut, ident, bound=4)


def b_stride(cfg):
    pay, par, r, rev, up = cfg["pay"], cfg["par"], cfg["ratio"], cfg["reverse"], cfg["up"]
    narrow = stream.EndpointDescription([tuple(x) for x in pay], [tuple(x) for x in par])
    wide = stream.EndpointDescription([(n, w * r) for n, w in pay], [tuple(x) for x in par])
    fw = [w for _, w in pay]
    if up:
        dut = stream.StrideConverter(narrow, wide, reverse=rev)
        return Setup(dut, lambda t: m_stride_up(t, r, fw, rev), ratio=r, bound=8 + 2 * r)
    dut = stream.StrideConverter(wide, narrow, reverse=rev)
    return Setup(dut, lambda t: m_stride_down(t, r, fw, rev), ratio=r, bound=8 + 2 * r)


def b_pack(cfg):
    d = desc(cfg["lay"])
    nf = len(LAYOUTS[cfg["lay"]][0])
    dut = stream.Pack(d, cfg["n"], reverse=cfg["reverse"])
    return Setup(dut, lambda t: m_pack(t, cfg["n"], nf, cfg["reverse"]), ratio=cfg["n"], bound=8 + 2 * cfg["n"])


def b_unpack(cfg):
    d = desc(cfg["lay"])
    nf = len(LAYOUTS[cfg["lay"]][0])
    dut = stream.Unpack(cfg["n"], d, reverse=cfg["reverse"])
    return Setup(dut, lambda t: m_unpack(t, cfg["n"], nf, cfg["reverse"]), ratio=cfg["n"], bound=8 + 2 * cfg["n"])


def b_gearbox(cfg):
    dut = stream.Gearbox(cfg["i"], cfg["o"], msb_first=cfg["msb"])
    r = max(2, (cfg["i"] + cfg["o"] - 1) // min(cfg["i"], cfg["o"]))
    return Setup(dut, lambda t: m_gearbox(t, cfg["i"], cfg["o"], cfg["msb"]), ratio=r, bound=16 + 4 * r)


def b_updown(cfg):
    """Converter up -> FIFO -> Converter down (composition): identity on complete groups."""
    w, r, rev = cfg["w"], cfg["ratio"], cfg["reverse"]
    up = stream.Converter(w, w * r, reverse=rev)
    ff = stream.SyncFIFO([("data", w * r)], cfg["depth"], buffered=cfg["buffered"])
    dn = stream.Converter(w * r, w, reverse=rev)
    p = stream.Pipeline(up, ff, dn)
    top = _top(up, ff, dn, p)

    def model(t):
        out = []
        for g in groups(t, r):
            f, l = int(any(x["first"] for x in g)), int(any(x["last"] for x in g))
            for k in range(r):
                if k < len(g):
                    out.append(exp(int(f and k == 0), int(l and k == r - 1), g[k]["pay"], None))
                else:   # padding lanes of a partial word: data is don't-care
                    out.append(exp(int(f and k == 0), int(l and k == r - 1), [0], None, [0]))
        return out
    return Setup(top, model, sink=p.sink, source=p.source, ratio=r, bound=24 + 4 * r + cfg["depth"])


def b_downup(cfg):
    """Converter down -> PipeValid -> Converter up: identity (words)."""
    w, r, rev = cfg["w"], cfg["ratio"], cfg["reverse"]
    dn = stream.Converter(w * r, w, reverse=rev)
    pv = stream.PipeValid([("data", w)])
    up = stream.Converter(w, w * r, reverse=rev)
    p = stream.Pipeline(dn, pv, up)
    top = _top(up, pv, dn, p)

    def model(t):
        return [exp(x["first"], x["last"], x["pay"], None) for x in t]
    return Setup(top, model, sink=p.sink, source=p.source, ratio=r, bound=24 + 4 * r)


def b_packunpack(cfg):
    n = cfg["n"]
    # NB: Pack/Unpack mutate the EndpointDescription object they are given: fresh one for each
    pk = stream.Pack(desc(cfg["lay"]), n, reverse=cfg["reverse"])
    un = stream.Unpack(n, desc(cfg["lay"]), reverse=cfg["reverse"])
    bf = stream.Buffer(stream.EndpointDescription(list(pk.source.description.payload_layout),
                                                  list(pk.source.description.param_layout)), True, cfg["pr"])
    p = stream.Pipeline(pk, bf, un)
    top = _top(pk, bf, un, p)

    def model(t):
        out = []
        for g in groups(t, n):
            f, l = int(any(x["first"] for x in g)), int(any(x["last"] for x in g))
            same = len(set(x["par"] for x in g)) == 1
            for k in range(n):
                par = g[0]["par"] if same else None
                if k < len(g):
                    out.append(exp(int(f and k == 0), int(l and k == n - 1), g[k]["pay"], par))
                else:
                    out.append(exp(int(f and k == 0), int(l and k == n - 1), [0] * len(g[0]["pay"]), par,
                                   [0] * len(g[0]["pay"])))
        return out
    return Setup(top, model, sink=p.sink, source=p.source, ratio=n, bound=24 + 4 * n)


BUILDERS = {
    "pipevalid": b_pipevalid, "pipeready": b_pipeready, "buffer": b_buffer, "delay": b_delay,
    "syncfifo": b_syncfifo, "cdc_same": b_cdc_same, "pipeline": b_pipeline, "bufferize": b_bufferize,
    "cast": b_cast, "converter": b_converter, "stride": b_stride, "pack": b_pack, "unpack": b_unpack,
    "gearbox": b_gearbox, "updown": b_updown, "downup": b_downup, "packunpack": b_packunpack,
}


def catalogue(tier):
    """All element configurations (explicit, JSON-able)."""
    c = []
    lays = ["d8", "ab", "d16p"] if tier == "quick" else list(LAYOUTS)
    for lay in lays:
        c.append(("pipevalid", {"lay": lay}))
        c.append(("pipeready", {"lay": lay}))
    for pv, pr in [(True, False), (False, True), (True, True), (False, False)]:
        c.append(("buffer", {"lay": "ab", "pv": pv, "pr": pr}))
    for n in ([0, 1, 3] if tier == "quick" else [0, 1, 2, 3, 5]):
        c.append(("delay", {"lay": "d16p", "n": n}))
    for depth in [0, 1, 2, 3, 4, 8, 17]:
        for buffered in [False, True]:
            if depth < 2 and buffered:
                continue
            c.append(("syncfifo", {"lay": "ab" if depth % 2 else "d16p", "depth": depth, "buffered": buffered}))
    for b in [False, True]:
        c.append(("cdc_same", {"lay": "ab", "buffered": b}))
    for st in [["pv", "pr"], ["pr", "pv", "f2"], ["f1", "f0", "b"], ["f4b", "pr", "pr"], ["pv", "pv", "pv"]]:
        c.append(("pipeline", {"lay": "ab", "stages": st}))
    for both, pv, pr in [(True, True, False), (False, True, True), (True, False, True)]:
        c.append(("bufferize", {"lay": "d16p", "both": both, "pv": pv, "pr": pr, "depth": 2}))
    c.append(("cast", {"lf": [["a", 4], ["b", 12]], "lt": [["x", 8], ["y", 8]], "rf": False, "rt": False}))
    c.append(("cast", {"lf": [["a", 3], ["b", 5], ["c", 8]], "lt": [["x", 10], ["y", 6]], "rf": True, "rt": False}))
    c.append(("cast", {"lf": [["a", 7], ["b", 9]], "lt": [["x", 2], ["y", 13], ["z", 1]], "rf": False, "rt": True}))
    c.append(("cast", {"lf": [["a", 8], ["b", 8]], "lt": [["x", 5], ["y", 11]], "rf": True, "rt": True}))
    ratios = [2, 3, 4, 8]
    for r in ratios:
        for rev in [False, True]:
            c.append(("converter", {"nf": 8, "nt": 8 * r, "reverse": rev, "report": True}))
            c.append(("converter", {"nf": 6 * r, "nt": 6, "reverse": rev, "report": r == 2}))
    c.append(("converter", {"nf": 8, "nt": 16, "reverse": False, "report": False}))
    c.append(("converter", {"nf": 8, "nt": 8, "reverse": False, "report": True}))
    c.append(("converter", {"nf": 1, "nt": 5, "reverse": True, "report": True}))
    for r in [2, 3, 4]:
        for rev in [False, True]:
            for up in [True, False]:
                c.append(("stride", {"pay": [["a", 4], ["b", 7]], "par": [["p", 3], ["q", 5]], "ratio": r,
                                     "reverse": rev, "up": up}))
    c.append(("stride", {"pay": [["data", 8]], "par": [], "ratio": 8, "reverse": False, "up": True}))
    c.append(("stride", {"pay": [["data", 8]], "par": [["k", 4]], "ratio": 8, "reverse": True, "up": False}))
    c.append(("stride", {"pay": [["a", 1], ["b", 2], ["c", 3]], "par": [["p", 9]], "ratio": 2, "reverse": False, "up": True}))
    for n in [2, 3, 4]:
        for rev in [False, True]:
            c.append(("pack", {"lay": "ab", "n": n, "reverse": rev}))
            c.append(("unpack", {"lay": "ab", "n": n, "reverse": rev}))
    c.append(("pack", {"lay": "d8", "n": 8, "reverse": False}))
    c.append(("unpack", {"lay": "abc", "n": 5, "reverse": True}))
    for i, o in [(10, 2), (2, 10), (10, 4), (20, 32), (32, 20), (8, 8), (7, 3), (3, 7), (16, 8), (8, 16), (5, 5), (66, 64), (12, 9)]:
        for msb in ([True, False] if (i, o) in [(10, 4), (7, 3), (3, 7), (20, 32)] or tier != "quick" else [True]):
            c.append(("gearbox", {"i": i, "o": o, "msb": msb}))
    for r, rev, depth, bufd in [(2, False, 2, False), (4, True, 4, True), (3, False, 0, False), (8, False, 3, False)]:
        c.append(("updown", {"w": 8, "ratio": r, "reverse": rev, "depth": depth, "buffered": bufd}))
    for r, rev in [(2, False), (4, True), (3, True)]:
        c.append(("downup", {"w": 7, "ratio": r, "reverse": rev}))
    for n, rev, pr in [(2, False, False), (3, True, True), (4, False, True)]:
        c.append(("packunpack", {"lay": "ab", "n": n, "reverse": rev, "pr": pr}))
    return c


# ------------------------------------------------------------------------------------ one history
def compare(expected, log):
    """first mismatch between expected tokens (with don't-cares) and delivered log entries."""
    for i, (e, l) in enumerate(zip(expected, log)):
        t = tok_of(l)
        bad = None
        if e["first"] is not None and e["first"] != t["first"]:
            bad = "first"
        elif e["last"] is not None and e["last"] != t["last"]:
            bad = "last"
        elif e["par"] is not None and tuple(e["par"]) != tuple(t["par"]):
            bad = "param"
        else:
            pm = e["paymask"] or [-1] * len(e["pay"])
            for k, (a, b, m) in enumerate(zip(e["pay"], t["pay"], pm)):
                if (a ^ b) & m:
                    bad = "payload"
                    break
        if bad:
            return {"index": i, "field": bad, "expected": e, "delivered": t, "cycle": l[0]}
    return None


def run_chain_case(case):
    """Runs one history on a single-sink single-source element. Returns a result dict with both the
    C03 verdict (data) and the C04 verdict (stability, progress)."""
    rng = rng_for(case["seed"])
    setup = BUILDERS[case["el"]](case["cfg"])
    n = case.get("n", 60)
    mode = case.get("mode") or rng.choice(["packets", "packets", "wild", "nolast", "ones"])
    toks = gen_tokens(rng, setup.sink, n, mode)
    hostile = case.get("hostile", rng.randint(20, 6 * n))
    if case.get("enum"):
        vi, ri, nb = case["enum"]
        vb = [(vi >> k) & 1 for k in range(nb)]
        rb = [(ri >> k) & 1 for k in range(nb)]
        vs, vk = Pattern(vb, True), "enum"
        rs, rk = Pattern(rb, True), "enum"
        hostile = len(vb)
        src_s, snk_s = vs, rs
    else:
        vs, vk = make_sched(rng, case.get("vs"), setup.ratio)
        rs, rk = make_sched(rng, case.get("rs"), setup.ratio)
        src_s, snk_s = Then(vs, hostile), Then(rs, hostile)
    bench = Bench(setup.dut, cap=hostile + 40 * n * max(1, setup.ratio) + 400)
    bench.track_states = True
    drv = bench.add(SourceDriver(setup.sink, toks, src_s, rng, garbage=case.get("garbage", True)))
    bench.add(SinkDriver(setup.source, snk_s))
    im = bench.add(EndpointMonitor(setup.sink, "sink"))
    om = bench.add(EndpointMonitor(setup.source, "source", check_stability=True))
    model = setup.model
    sb = bench.add(Scoreboard([drv], [im], [om], lambda: len(model([tok_of(x) for x in im.log])),
                              coop_from=hostile + 2, stall_bound=setup.bound))
    ok = bench.run()
    accepted = [tok_of(x) for x in im.log]
    expected = model(accepted)
    res = {"accepted": len(im.log), "delivered": len(om.log), "expected": len(expected),
           "cycles": bench.cycle["sys"], "states": len(bench.states_seen), "sched": [vk, rk],
           "mode": mode, "hostile": hostile, "stalled_cycles": om.stalled_cycles,
           "capped": not ok, "data": None, "stability": om.stab_viol[:3], "stall": sb.stalled,
           "sent_ok": [tok_of(x) for x in im.log] == toks[:len(im.log)]}
    mm = compare(expected, om.log)
    if mm is None and len(om.log) > len(expected):
        mm = {"index": len(expected), "field": "extra-token", "delivered": tok_of(om.log[len(expected)])}
    if mm is None and len(om.log) < len(expected) and not sb.stalled and ok:
        mm = {"index": len(om.log), "field": "missing-token", "expected": expected[len(om.log)]}
    res["data"] = mm
    res["lost_at_stall"] = (len(expected) - len(om.log)) if sb.stalled else 0
    res["in_sample"] = [list(x) for x in im.log[:4]]
    res["out_sample"] = [list(x) for x in om.log[:3]]
    return res
