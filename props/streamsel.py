"""Selection-based routing elements (Multiplexer, Demultiplexer, Gate): per-cycle checkers.
These are combinational, so a source handshake in cycle c must coincide with the handshake of
the selected sink in the same cycle, carry the same token, and no other endpoint may move."""
from migen import *

from litex.soc.interconnect import stream

from lib.collect import rng_for, h
from lib.bench.kernel import Bench
from lib.bench.stream import (SourceDriver, SinkDriver, EndpointMonitor, make_sched, Then, tok_of)
from props.streamlib import desc, gen_tokens


class SelDriver:
    """Drives a selector/enable; changes it only at an edge where no token is stalled on the
    endpoints in `guards` (otherwise the environment itself would retract an offered token)."""
    def __init__(self, sig, values, rng, guards, p=0.15):
        self.sig, self.values, self.rng, self.guards, self.p = sig, values, rng, guards, p
        self.cur = values[0]
        self.hist = []
        self.changes = 0

    def signals(self):
        s = [self.sig]
        for g in self.guards:
            s += [g.valid, g.ready]
        return s

    def step(self, v, c):
        self.hist.append(v[self.sig])
        if any(v[g.valid] and not v[g.ready] for g in self.guards):
            return None
        if self.rng.random() < self.p:
            self.cur = self.rng.choice(self.values)
            self.changes += 1
            return {self.sig: self.cur}
        return None


def cases(tier, seed, prop):
    per = 10 if tier == "quick" else 120
    out = []
    for kind, cfgs in (("mux", [{"n": 1}, {"n": 2}, {"n": 3}, {"n": 4}]),
                       ("demux", [{"n": 1}, {"n": 2}, {"n": 3}, {"n": 4}]),
                       ("gate", [{"srwd": False}, {"srwd": True}])):
        for ci, cfg in enumerate(cfgs):
            for k in range(per):
                out.append({"el": kind, "cfg": cfg, "seed": "%d/%s/%s/%d/%d" % (seed, prop, kind, ci, k), "n": 40})
    return out


def run_case(case):
    rng = rng_for(case["seed"])
    cfg, n, kind = case["cfg"], case["n"], case["el"]
    d = desc("ab")
    hostile = rng.randint(40, 5 * n)
    if kind == "mux":
        dut = stream.Multiplexer(d, cfg["n"])
        sinks = [getattr(dut, "sink%d" % i) for i in range(cfg["n"])]
        sources = [dut.source]
        selsig, selvals = dut.sel, list(range(cfg["n"]))
    elif kind == "demux":
        dut = stream.Demultiplexer(d, cfg["n"])
        sinks = [dut.sink]
        sources = [getattr(dut, "source%d" % i) for i in range(cfg["n"])]
        selsig, selvals = dut.sel, list(range(cfg["n"]))
    else:
        dut = stream.Gate(d, sink_ready_when_disabled=cfg["srwd"])
        sinks, sources = [dut.sink], [dut.source]
        selsig, selvals = dut.enable, [1, 0, 1]
    bench = Bench(dut, cap=hostile + 60 * n + 300)
    drvs, ims, oms = [], [], []
    for i, s in enumerate(sinks):
        toks = gen_tokens(rng, s, n, rng.choice(["packets", "wild"]))
        sch, _ = make_sched(rng)
        drvs.append(bench.add(SourceDriver(s, toks, Then(sch, hostile), rng)))
        ims.append(bench.add(EndpointMonitor(s, "sink%d" % i)))
    for i, s in enumerate(sources):
        sch, _ = make_sched(rng)
        bench.add(SinkDriver(s, Then(sch, hostile)))
        oms.append(bench.add(EndpointMonitor(s, "source%d" % i, check_stability=True)))
    sd = bench.add(SelDriver(selsig, selvals, rng, sources))

    class End:
        def __init__(self):
            self.c = 0
            self.last = 0
            self.tot = -1

        def signals(self):
            return []

        def step(self, v, c):
            self.c = c
            t = sum(len(m.log) for m in ims)
            if t != self.tot:
                self.tot, self.last = t, c
            return None

        def done(self):
            # ends when every producer is done, or nothing has been accepted for a long while
            # (a sink that is never selected legitimately never drains)
            return all(x.done() for x in drvs) or (self.c > hostile and self.c - self.last > 80)
    bench.add(End())
    ok = bench.run()
    sel_at = sd.hist       # sel value during cycle c (sampled at edge c)
    errs = []
    routed = 0
    in_by_cycle = [{e[0]: e for e in m.log} for m in ims]
    out_by_cycle = [{e[0]: e for e in m.log} for m in oms]
    cycles = sorted(set(c for d_ in in_by_cycle + out_by_cycle for c in d_))
    for c in cycles:
        s = sel_at[c] if c < len(sel_at) else None
        ins = [i for i, d_ in enumerate(in_by_cycle) if c in d_]
        outs = [i for i, d_ in enumerate(out_by_cycle) if c in d_]
        if kind == "mux":
            exp_in, exp_out = ([s] if outs else []), ([0] if ins else [])
            # with n=1 sel is 1 bit wide and may be 1: then nothing is selected (no case) -> nothing moves
            if s is not None and s >= cfg["n"]:
                exp_in, exp_out = [], []
        elif kind == "demux":
            exp_in, exp_out = ([0] if outs else []), ([s] if ins else [])
            if s is not None and s >= cfg["n"]:
                exp_in, exp_out = [], []
        else:
            if s:
                exp_in, exp_out = ([0] if outs else []), ([0] if ins else [])
            else:
                exp_in, exp_out = (ins if cfg["srwd"] else []), []
        if ins != exp_in or outs != exp_out:
            errs.append({"cycle": c, "sel": s, "sink_handshakes": ins, "source_handshakes": outs,
                         "expected_sinks": exp_in, "expected_sources": exp_out, "kind": "routing"})
            continue
        if ins and outs:
            a, b = tok_of(in_by_cycle[ins[0]][c]), tok_of(out_by_cycle[outs[0]][c])
            routed += 1
            if a != b:
                errs.append({"cycle": c, "sel": s, "accepted": a, "delivered": b, "kind": "altered"})
    # order / exactly-once per endpoint follows from the per-cycle pairing; also check producers' scripts
    stab = [x for m in oms for x in m.stab_viol]
    return {"errs": errs[:3], "nerr": len(errs), "routed": routed, "sel_changes": sd.changes,
            "accepted": sum(len(m.log) for m in ims), "delivered": sum(len(m.log) for m in oms),
            "cycles": bench.cycle["sys"], "capped": not ok, "stability": stab[:3],
            "sel_values": sorted(set(sel_at))}


def judge(col, case, r, prop):
    col.ev("routed_tokens", r["routed"])
    col.ev("sink_handshakes", r["accepted"])
    col.ev("source_handshakes", r["delivered"])
    col.ev("selector_changes", r["sel_changes"])
    col.ev("histories")
    col.cov("configs", h([case["el"], case["cfg"]]))
    if r["capped"]:
        col.inconc(case, "cycle cap reached")
    if prop == "C03" and r["nerr"]:
        e = r["errs"][0]
        col.violation("%s/%s" % (case["el"], e["kind"]), case,
                      "%s cfg=%s: %s" % (case["el"], case["cfg"], e), {"errors": r["errs"]})
    if prop == "C04" and r["stability"]:
        e = r["stability"][0]
        col.violation("%s/%s" % (case["el"], e["kind"]), case,
                      "%s cfg=%s: %s" % (case["el"], case["cfg"], e), {"stability": r["stability"]})
    col.case_done(case, r["routed"] >= 5 and r["sel_changes"] >= 1,
                  sample={"case": case, "routed": r["routed"], "selector_changes": r["sel_changes"],
                          "selector_values_seen": r["sel_values"]} if r["routed"] else None)
