#!/bin/sh
# Offline setup: runtime-contract libraries beside the repository's interpreter (no network).
cd "$(dirname "$0")" || exit 1
if [ ! -d .deps/icontract ]; then
  PIP_NO_INDEX=1 /venv/bin/pip install -q --no-index --find-links /opt/veriftools/wheels \
      --target .deps icontract deal jsonschema >/dev/null 2>&1 || \
  PIP_NO_INDEX=1 /venv/bin/pip install -q --no-index --find-links /opt/veriftools/wheels \
      --target .deps icontract || exit 1
fi
/venv/bin/python -B -c "import sys; sys.path.insert(0,'.deps'); import icontract; print('icontract', icontract.__version__)"
