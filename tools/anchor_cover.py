#!/venv/bin/python
"""tools/anchor_cover.py <dump-dir> [PROP ...]: merges the line-hit dumps written by workers run with VERIF_COVER=<dump-dir>
and prints, for every anchor file of each property, the functions / classes with lines the workloads never executed
(def/class bodies only, docstrings and blank lines excluded through the code objects' own line tables)."""
import os, sys, json, glob, ast, types

VERIF = os.path.dirname(os.path.dirname(os.path.abspath(__file__)))
ROOT = os.environ.get("LITEX_ROOT", "/repo")


def code_lines(path):
    """executable lines per qualified function name, from compiled code objects"""
    src = open(path).read()
    top = compile(src, path, "exec")
    out = {}

    def walk(co, qual):
        lines = {l for _, _, l in co.co_lines() if l}
        lines.discard(co.co_firstlineno)
        out.setdefault(qual, set()).update(lines)
        for c in co.co_consts:
            if isinstance(c, types.CodeType):
                nm = c.co_name
                if nm.startswith("<") and nm != "<lambda>":
                    walk(c, qual)  # comprehensions belong to the parent
                else:
                    walk(c, (qual + "." if qual != "<module>" else "") + nm)
    walk(top, "<module>")
    # remove children's lines from parents
    return out


def main():
    d = sys.argv[1]
    props = sys.argv[2:]
    hits = {}
    byprop = {}
    for f in glob.glob(os.path.join(d, "*.json")):
        prop = os.path.basename(f).split(".")[0]
        for k, v in json.load(open(f)).items():
            hits.setdefault(k, set()).update(v)
            byprop.setdefault(prop, {}).setdefault(k, set()).update(v)
    P = [json.loads(l) for l in open(os.path.join(VERIF, "properties.jsonl"))]
    if props and props[0] == "--union":
        files = []
        for p in P:
            for af in p["anchors"]["files"]:
                if af not in files:
                    files.append(af)
        P = [{"id": "ALL", "anchors": {"files": files}}]
        byprop["ALL"] = hits
        props = []
    for p in P:
        if props and p["id"] not in props:
            continue
        h = byprop.get(p["id"], {})
        print("== %s" % p["id"])
        for af in p["anchors"]["files"]:
            path = os.path.join(ROOT, af)
            if not os.path.exists(path):
                print("   %s: missing" % af)
                continue
            cl = code_lines(path)
            got = h.get(af, set())
            tot = set().union(*cl.values()) if cl else set()
            print("   %s: %d/%d executable lines hit by this property's workers" % (af, len(tot & got), len(tot)))
            for q in sorted(cl, key=lambda q: min(cl[q]) if cl[q] else 0):
                if q == "<module>" or not cl[q]:
                    continue
                own = cl[q] - set().union(*[cl[c] for c in cl if c != q and c.startswith(q + ".")] or [set()])
                miss = own - got
                if own and miss and ((len(miss) == len(own) and len(own) > 2) or (len(miss) < len(own) and len(miss) >= 2)):
                    print("      %-60s %3d/%3d missed %s" % (q, len(miss), len(own), "ALL" if len(miss) == len(own) else sorted(miss)[:12]))


main()
