#!/venv/bin/python
"""Runs the repository's pinned suite with the guard OFF and compares with /root/.vp/BASELINE.json."""
import json, subprocess, sys, os, xml.etree.ElementTree as ET
out = "/tmp/_baseline_junit_%d.xml" % os.getpid()
env = dict(os.environ); env.pop("LITEX_VERIF", None)
subprocess.run("cd /repo && /venv/bin/python -m pytest -ra -q -p no:cacheprovider --timeout=900 --continue-on-collection-errors "
               "--junitxml=%s %s > /dev/null 2>&1" % (out, " ".join(sys.argv[1:])), shell=True, env=env)
base = json.load(open("/root/.vp/BASELINE.json"))
passed, failed = set(), set()
for tc in ET.parse(out).getroot().iter("testcase"):
    name = "%s::%s" % (tc.get("classname"), tc.get("name"))
    (failed if (tc.find("failure") is not None or tc.find("error") is not None) else passed).add(name)
os.remove(out)
stable = set(base["stable_pass"])
print("passed", len(passed), "failed", len(failed))
print("stable_pass now failing or missing:", sorted(stable - passed))
print("extra passing:", sorted(passed - stable)[:10])
sys.exit(1 if stable - passed else 0)
