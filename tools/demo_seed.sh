#!/bin/sh
# tools/demo_seed.sh <PROP>: only confirms the demonstration of /tmp/seed_out_<PROP> (exit 0 on /repo, 1 on a patched scratch copy)
P=$1; O=/tmp/seed_out_$P
D=$(mktemp -d /tmp/seedtry.XXXXXX)
rsync -a --exclude .git --exclude '*.vcd' --exclude __pycache__ /repo/ "$D/"
(cd "$D" && patch -s -p1 < $O/patch.diff) || { echo "PATCH DID NOT APPLY"; rm -rf "$D"; exit 3; }
(cd /tmp && timeout 1200 /venv/bin/python $O/demo.py /repo > /tmp/demo_${P}_clean.log 2>&1); echo "$P demo on clean tree: exit $?"
(cd /tmp && timeout 1200 /venv/bin/python $O/demo.py "$D" > /tmp/demo_${P}_patched.log 2>&1); echo "$P demo on patched tree: exit $?"
rm -rf "$D"
