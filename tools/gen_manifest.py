#!/venv/bin/python
"""Regenerates MANIFEST.json from the table below and validates it against the schema."""
import os, sys, json, subprocess
ROOT = os.path.dirname(os.path.dirname(os.path.abspath(__file__)))
sys.path.insert(0, os.path.join(ROOT, ".deps"))

CHECKS = {
 "C03": ("exploration", "handshake-log monitors + executable transfer functions over randomized/targeted valid-ready schedules",
         "Runs every stream element (124 configurations quick) under thousands of producer/consumer schedules in the repository's simulator; sink and source handshake logs are compared with the element's transfer function (exactly once, in order, payload/param/first/last). Exploration: schedules and token sequences are sampled (all 2^14 valid/ready prefixes of 7 cycles enumerated for 9 small configurations in the thorough tier).",
         "trusted: litex.gen.sim.core as execution engine, the transfer functions in props/streamlib.py, tracer shim (names only)", "4 C03"),
 "C04": ("exploration", "online stability monitor on every DUT-driven endpoint + bounded-progress watchdog in a cooperative suffix entered from many reachable states",
         "Every source endpoint is watched every cycle for valid retraction / token change while stalled; after a hostile prefix of random length the run switches to a cooperative producer/consumer and any period without movement longer than the element's bound while tokens are still expected is a stall. Unbounded liveness is restated as bounded progress from the sampled reachable states.",
         "trusted: simulator, progress bounds per element, masks for documented don't-care lanes (residue beat of an unaligned Packetizer header)", "4 C04"),
 "C16": ("exploration", "handshake-log monitors vs an independent header byte-layout model; per-cycle atomicity/release monitors",
         "Random header definitions x data widths 8..128 x packet lists x schedules through Packetizer, Depacketizer and their loop-back; PacketFIFO release/param monitor; Arbiter/Dispatcher per-cycle pairing with selector changes mid-packet.",
         "trusted: simulator, header_bytes()/frame_words() model in props/packetlib.py", "4 C16"),
 "C06": ("exploration", "master/slave completion logs with unique payloads paired offline + per-cycle grant/decode invariants",
         "Shared, crossbar and point-to-point Wishbone interconnects (1..3 x 1..3, random disjoint maps from mask decoders and SoCRegion.decoder, registered or not) under contending master BFMs (single/block cycles, back-to-back, simultaneous, cyc held or dropped) and slave BFMs with latencies and err; every master termination is paired with exactly one cycle at the mapped slave (same adr/we/sel/dat_w, that slave's dat_r/ack/err), unmapped addresses reach no slave, grant never moves while the owner holds cyc, fairness bound counted on the observed grant history.",
         "trusted: simulator, BFMs in lib/bench/wb.py; masters never abort a pending stb; slaves have >= 1 wait state", "4 C06"),
 "C07": ("exploration", "history at the master port vs reference byte memory; ack monitors; backing-store comparison",
         "Every Wishbone adapter/memory configuration (91 quick) is driven with read/write/burst histories over a small aliasing window; each read is compared byte-wise (selected lanes) with a reference byte memory, the history ends with a full read sweep, pass-through DUTs are additionally compared with the backing Memory contents.",
         "trusted: simulator, RefMem replay in props/c07.py, Cache(reverse) lane mapping for initial content", "4 C07"),
 "C08": ("exploration", "five-channel handshake logs with unique ids paired offline + online stability / grant-lock monitors, per master timing class",
         "AXI-Lite and AXI4 shared interconnects and crossbars (1..3 x 1..3) under master BFMs of four timing classes (A LiteX-like, B data before address, C several outstanding, D heavy response back-pressure) and slave BFMs that accept AW/W/AR independently, queue and answer in order with random delay/resp. Class A and D must be violation-free outright; violations in B/C are named by root-cause classifiers over the recorded history.",
         "trusted: simulator, BFMs in lib/bench/axil.py and lib/bench/axi.py, AMBA address model lib/models/axi.py", "4 C08"),
 "C11": ("fault_enumeration", "fault-instant sweep (mute slave / slow slave at T-2..T / unmapped address) with termination-latency, error-indication and recovery monitors",
         "For Wishbone, AXI-Lite and AXI4 (Timeout alone, shared interconnect, crossbar) and T in {1,2,3,5,8,16} the cycle at which a slave goes mute is swept over every cycle (every third in quick) of a short multi-master history, per fault kind (all channels / responses only / address acceptance only); slow healthy slaves answer at T-2..T including the expiry cycle. Every request must terminate exactly once, timed-out ones at the configured latency with the bus's error indication, answered ones unmodified, and the history must complete. WaitTimer against a cycle-exact reference; SoCController.bus_errors wired as in SoC.finalize (increment per timeout, saturation by presetting the counter).",
         "trusted: simulator, BFMs; c_bus constants stated in the check; faulty slaves stay mute for ever", "4 C11"),
 "C09": ("exploration", "master-side history vs window reference byte memory + online protocol monitors on every slave-side output, per partner class",
         "Every bridge / AXI-Lite converter / AXI-Lite SRAM configuration (38) x partner classes (LiteX-like single-outstanding partners, which must be clean; hostile-but-legal partners that queue, delay, back-pressure; error-injecting slaves) x read/write/burst histories. Reads are checked byte-wise against a reference memory that admits every value a time-overlapping write could give; a raised valid / Wishbone request on the slave side must be held unchanged until accepted; slave errors must surface at the master.",
         "trusted: simulator, BFMs (lib/bench/*.py), AMBA address model, WindowRefMem; Wishbone slaves raise err together with ack (LiteX convention)", "4 C09"),
 "C10": ("exploration", "burst parameter enumeration as workload; beat stream vs independent AMBA address equations; converters vs reference memory per burst-feature class",
         "AXIBurst2Beat: every legal (offset, size, type, len) tuple of a 32- and 64-bit bus (6372 quick, all offsets 0..63 thorough) under several ready patterns, each beat address compared at transfer-size granularity with lib/models/axi.py, first/last/id and the single request handshake checked. AXIUp/Down/Converter at ratios 2/4/8 between AXI master and memory BFMs, one burst feature class per history (aligned / incr / unaligned / narrow / wrap / fixed).",
         "trusted: simulator, lib/models/axi.py (AMBA A3.4.1 equations), AXI BFMs", "4 C10"),
 "C12": ("exploration", "cycle-by-cycle comparison of the real CSR bank array with a register-file model built from the declaration",
         "Random AutoCSR peripherals (storages +-atomic +-write_from_dev +-fields/pulse, statuses, raw CSRs, fixed locations, a CSR memory with sub-word staging and paging) collected by the real CSRBankArray at bus widths 8/32, big/little ordering and several pagings; random bus histories incl. unmapped and foreign-page addresses interleaved with device-side updates; dat_r, every storage, re/we strobes and field signals are predicted for every cycle; register placement compared with the documented rule.",
         "trusted: simulator, the model in props/c12.py; device and bus writes to one register never collide in a cycle", "4 C12"),
 "C13": ("exploration", "icontract invariants/post-conditions on the real allocators under random hostile call histories; decoder predicates evaluated with the repository's Evaluator",
         "Harness subclasses of SoCBusHandler / SoCCSRHandler / SoCIRQHandler / ConstraintManager carry icontract invariants (disjoint decoded windows, alignment, IO containment, unique names/numbers in range, available xor matched, one constraint per granted signal); SoCRegion.decoder is wrapped and its returned predicate evaluated on boundary and random addresses on real Wishbone/AXI interfaces; bus.finalize() and a CPU-less SoCCore.finalize() act as the finalization check. A request that raises is a rejection; an accepted state violating an invariant is the violation.",
         "trusted: icontract, the invariants in props/c13mon.py, litex.gen.sim.core.Evaluator for decoder predicates", "4 C13"),
 "C19": ("exploration", "pin-level protocol monitors written from the external standards / class documentation + bounded-completion watchdogs",
         "UART TX frame decoder and RX frame generator (rate mismatch, every sub-bit phase, zero gaps, bad stop bits) on the PHYs and on the full UART behind a real CSR bank; SPI master monitor with MISO responder over dividers, lengths and start phases; SPI slave against a master BFM; I2C bus decoder on open-drain pads with a responder; Timer/Watchdog/WaitTimer/timeline/PWM against documented counter models through real CSR banks.",
         "trusted: simulator, monitors in props/c19_*.py; tolerances listed in ASSUMPTIONS of the evidence", "4 C19"),
 "C20": ("exploration", "icontract post-conditions on every helper's compute_config/do_finalize + independent brute-force cross-check of refusals",
         "Random and boundary requests (input frequency, 1..max outputs, margins, phases, speed grades) for 20 vendor helpers; returned configurations are re-evaluated with device formulae written without LiteX (lib/models/pll.py): outputs within margin, every divider/multiplier/PFD/VCO inside the declared ranges, emitted Instance parameters equal the configuration; refusals are cross-checked by an independent search; the repository's test_clock.py also runs under the contracts.",
         "trusted: icontract, lib/models/pll.py formulae and declared-range tables read from the classes", "4 C20"),
 "C15": ("exploration", "online invariants every cycle (irq, status, pending model with set-over-clear priority) + one-to-one attribution of clear cycles to software write-ones; trigger/clear offset sweep",
         "1..2 EventManagers with 1..12 sources of mixed kinds behind a real CSR bank (8/32 bit, big/little); trigger waveforms and accessor-style software writes with the trigger-to-clear offset swept over -4..+4 cycles; SharedIRQ is the OR.",
         "trusted: simulator, the per-source model in props/c15.py; the documented clear input is observed to time coincidences", "4 C15"),
 "C01": ("translation_validation", "differential execution: each design is built twice, one instance converted by the real backend and its Verilog text executed by an own IEEE 1364 interpreter (lib/vsim), the other run by the repository's FHDL simulator; every signal and memory word compared every tick under the same stimulus and clock schedule",
         "Corpus of 119 real LiteX blocks at several parameterisations (stream, packet, Wishbone, AXI, AXI-Lite, CSR, CDC, cores) plus grammar-generated fragments in three classes (width-closed unsigned, width-closed mixed signedness, hostile) with If/Case/Array nesting, slices/Cat/Replicate on both sides, two clock domains with random edge schedules, resets, memories with every port mode / granularity / init; narrow combinational fragments exhaustively over their inputs, the rest under random stimuli. Disagreements are named by structural classifiers over the cone of statements that can have produced the first differing value; the width-closed classes must be disagreement-free except for the listed memory-template and Migen findings. Validates each translated program on the inputs run, not the translator.",
         "trusted: lib/vsim (self-test vectors from IEEE 1364-2005 5.4/5.5 run before every shard), litex.gen.sim.core as the reference semantics, classifiers only name a disagreement (never decide one); Instances are not executed (none in the corpus, counted)", "4 C01"),
 "C02": ("exploration", "icontract post-conditions on SignalNamespace.get_name / build_signal_namespace + declaration parser over emitted text + fresh-process reproducibility runs",
         "Generated hostile designs (nested repeated hierarchies, equal names, digit/suffix-like/reserved/underscore overrides, memories, instances, shim on and off) are named through the real namer in several request orders and converted; names must be pairwise distinct, stable, legal and outside an independently written IEEE 1364-2005 + 1800-2017 keyword list, every identifier declared once in the text, and the text identical across fresh processes with different PYTHONHASHSEED.",
         "trusted: icontract, lib/models/verilog_keywords.py (independent keyword list), the declaration parser in props/c02lib.py", "4 C02"),
 "C17": ("exploration", "line-code monitors (bit-counted running disparity, run length, comma windows, ones-count validity) on the real encoder/decoder; exhaustive symbol sweep, pair/triple streaming, stall schedules on the stream wrappers",
         "All 256+12 symbols x both disparities round-trip through the real Encoder(nwords 1..4, msb/lsb) and Decoder; ordered data pairs x disparities and random triples are streamed while monitors recompute disparity by counting bits and scan for runs > 5 and comma windows across symbol boundaries; every 10-bit word checks invalid iff ones not in {4,5,6}; StreamEncoder/StreamDecoder loop-backs under stall and gap schedules.",
         "trusted: simulator, monitors in props/c17lib.py written from the statement (no table re-implementation)", "4 C17"),
 "C18": ("fault_enumeration", "bit-flip enumeration on the real ECCEncoder -> flip mask -> ECCDecoder chain with oracles from the statement",
         "Widths 1..128; data exhaustive for k <= 8, otherwise zero/ones/walking-one/random; every single flip position incl. the parity bit (all widths in thorough, 54 widths fully swept in quick), every double flip for code words up to 41 bits and sampled pairs (always incl. parity-bit pairs) above; enable=0 pass-through.",
         "trusted: simulator Evaluator driven directly (combinational design asserted), oracle in props/c18.py", "4 C18"),
 "C05": ("exploration", "handshake-log comparison across domains under a PRNG edge scheduler with coinciding edges and per-bit metastability injection at every MultiReg; membership monitor for the bus synchroniser",
         "AsyncFIFO / ClockDomainCrossing (depths 4/8/16, buffered or not, common reset with pulses), AXILiteClockDomainCrossing (window reference memory), stream.Monitor in another domain and BusSynchronizer (widths 1..16, ratio-bounded R=1..3, two timeouts) run under random per-domain edge probabilities; every synchroniser first flop sampled in the instant its input changes resolves each changing bit to old or new. Accepted and delivered token lists must be equal (a subsequence across resets), the bus synchroniser may only output words its input held, and must reflect a stable input.",
         "trusted: simulator, fault model in lib/bench/faults.py (metastability only at declared synchronisers), BFMs", "4 C05"),
 "C14": ("exploration", "accessor replay on the simulated SoC: published addresses and parsed accessor bodies are executed access by access through a bus master while the registers' own signals and the Memory arrays are observed; cross-format comparison; memory-image lane check",
         "CPU-less SoCCore configurations (bus standard x width x interconnect x CSR width x ordering x paging, random peripherals, CSR memories, ROM/SRAM/main RAM) are finalised; JSON/CSV/header/SVD/mem.h are produced by the export functions and through Builder's own generation methods; every published register is written and read exactly as its generated accessor does and must change/return exactly that register; memory regions and CSR memory windows are located in the Memory arrays; get_mem_data images are checked byte-lane-wise for both endiannesses and data widths. A quarter of the SoCs carry a core-less CPU stub (interrupt vector + idle bus masters) so that the IRQ handler is enabled: peripherals with EventManagers get fixed or allocated interrupt numbers, the numbers published in JSON/CSV/soc.h must agree, and each event raised through the real EventManager must show on exactly the published bit of the CPU's interrupt vector and be released through the published pending accessor.",
         "trusted: simulator, accessor parser in props/c14.py, csr_read_simple/csr_write_simple modelled as 32-bit accesses", "4 C14"),
}

def main():
    checks = []
    for pid in sorted(CHECKS):
        cat, tech, text, note, ref = CHECKS[pid]
        checks.append({
            "property_id": pid,
            "quick_cmd": "./check %s --tier quick" % pid,
            "thorough_cmd": "./check %s --tier thorough" % pid,
            "evidence_file": "evidence/%s.json" % pid,
            "replay_cmd_template": "./check %s --replay {path}" % pid,
            "engine": "bench",
            "level_claimed": {"category": cat, "text": text, "design_ref": "DESIGN.md section " + ref},
            "level_note": note,
            "technique": "runtime monitoring: " + tech,
        })
    props = [json.loads(l)["id"] for l in open(os.path.join(ROOT, "properties.jsonl"))]
    na = [{"property_id": p, "reason": "check not built yet in this round (planned, see DESIGN.md section 4); not claimed"}
          for p in props if p not in CHECKS]
    m = {
        "version": 1,
        "setup_cmd": "./setup.sh",
        "hooks": {"guard": "LITEX_VERIF", "enable": "no source hooks are needed: monitors attach to signals of the elaborated design and wrap Python functions from the harness; checks export LITEX_VERIF=1 anyway",
                  "baseline_off_cmd": "cd /repo && env -u LITEX_VERIF /venv/bin/python -m pytest -ra -q -p no:cacheprovider --timeout=900 --continue-on-collection-errors",
                  "source_commits": [], "add_only": True},
        "engines": [{"name": "bench", "path": "lib/", "serves_properties": sorted(CHECKS),
                     "kind_free_text": "runtime monitors (handshake logs, online invariants, reference models, icontract) on the real LiteX code executed by the repository's own simulator; 16 subprocess workers"}],
        "checks": checks,
        "notes": "Exit codes: 0 held on what was observed, 1 unlisted violation (VIOLATION line), 2 inconclusive (monitor floor not reached / cap / worker timeout). known_findings.json lists genuine defects (open -> KNOWN-FINDING line, fixed -> suppress nothing).",
        "not_applicable": na,
    }
    with open(os.path.join(ROOT, "MANIFEST.json"), "w") as f:
        json.dump(m, f, indent=1)
        f.write("\n")
    import jsonschema
    jsonschema.validate(m, json.load(open("/root/.vp/MANIFEST.schema.json")))
    print("MANIFEST.json ok:", len(checks), "checks,", len(na), "not claimed")

main()
