#!/bin/sh
# tools/keep_seed.sh <PROP> <slug> "<caught-by text>"  : archives /tmp/seed_out_<PROP> into /verif/seeded/<PROP>-<slug>/ and removes the worktree
P=$1; SLUG=$2; NOTE=$3
D=/verif/seeded/$P-$SLUG
mkdir -p $D
cp /tmp/seed_out_$P/patch.diff /tmp/seed_out_$P/demo.py $D/
/venv/bin/python - "$P" "$D" "$NOTE" <<'PY'
import json,sys
p,d,note=sys.argv[1:4]
try: m=json.load(open('/tmp/seed_out_%s/meta.json'%p))
except Exception as e: m={"property":p,"summary":"(meta.json missing or invalid: %s)"%e}
m["property"]=p
m["confirmed_by_me"]="demo.py exits 0 on /repo HEAD and 1 with patch.diff applied (git -C /repo apply; reverted with git checkout -- .)"
m["verif_result"]=note
json.dump(m,open(d+'/meta.json','w'),indent=1)
PY
git -C /repo worktree remove --force /tmp/seed_$P 2>/dev/null; rm -rf /tmp/seed_out_$P
echo kept $D
