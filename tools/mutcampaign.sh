#!/bin/sh
# tools/mutcampaign.sh [N per entry] : runs tools/mutsweep.py over the anchored source files with the check(s) that own them.
# Report: mutation/report.jsonl (appended), console summary in mutation/campaign.log
cd "$(dirname "$0")/.." || exit 1
N=${1:-12}
OUT=mutation/report.jsonl
run() { /venv/bin/python tools/mutsweep.py "$1" "$2" --lines "$3" --n $N --out $OUT; }
run C18      litex/soc/cores/ecc.py                          24-289
run C17      litex/soc/cores/code_8b10b.py                   156-392
run C15      litex/soc/interconnect/csr_eventmanager.py      22-235
run C16      litex/soc/interconnect/packet.py                39-100,158-400
run C03,C04  litex/soc/interconnect/stream.py                170-235,300-345,353-660,773-1054
run C06      litex/soc/interconnect/wishbone.py              187-320
run C07      litex/soc/interconnect/wishbone.py              135-186,321-809
run C11      litex/soc/interconnect/wishbone.py              187-216
run C08      litex/soc/interconnect/axi/axi_lite.py          630-845
run C09      litex/soc/interconnect/axi/axi_lite.py          239-528
run C11      litex/soc/interconnect/axi/axi_lite.py          571-629
run C10      litex/soc/interconnect/axi/axi_full.py          160-380
run C08      litex/soc/interconnect/axi/axi_full.py          442-657
run C09      litex/soc/interconnect/axi/axi_lite_to_wishbone.py ""
run C09      litex/soc/interconnect/axi/axi_full_to_axi_lite.py ""
run C12      litex/soc/interconnect/csr_bus.py               115-313
run C12      litex/soc/interconnect/csr.py                   80-148,261-586
run C13      litex/soc/integration/soc.py                    60-900
run C14      litex/soc/integration/export.py                 ""
run C19      litex/soc/cores/uart.py                         ""
run C19      litex/soc/cores/spi/spi_master.py               ""
run C19      litex/soc/cores/timer.py                        ""
run C20      litex/soc/cores/clock/xilinx_common.py          ""
run C20      litex/soc/cores/clock/lattice_ecp5.py           ""
run C20      litex/soc/cores/clock/intel_common.py           ""
run C01      litex/gen/fhdl/expression.py                    ""
run C01      litex/gen/fhdl/verilog.py                       100-480
run C01      litex/gen/fhdl/memory.py                        ""
run C02      litex/gen/fhdl/namer.py                         ""
run C05      litex/soc/interconnect/stream.py                235-300
