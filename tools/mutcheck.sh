#!/bin/sh
# tools/mutcheck.sh <PROP> <sed-expr> <file-relative-to-repo> [extra check args]
# Applies a sed mutation to a scratch copy of /repo's working tree (outside /repo and /verif),
# runs ./check PROP against it, removes the scratch copy. Exit status of the check is printed.
P=$1; EXPR=$2; F=$3; shift 3
D=$(mktemp -d /tmp/mut.XXXXXX)
rsync -a --exclude .git --exclude '*.vcd' --exclude __pycache__ /repo/ "$D/"
cp "$D/$F" "$D/$F.orig"
sed -i "$EXPR" "$D/$F"
if cmp -s "$D/$F" "$D/$F.orig"; then echo "MUTATION DID NOT APPLY"; rm -rf "$D"; exit 3; fi
diff "$D/$F.orig" "$D/$F" | head -8
cd /verif && LITEX_ROOT="$D" ./check "$P" --no-evidence "$@" 2>&1 | grep -E "VIOLATION|mechanism|tier=|INCONCLUSIVE" | head -8
rm -rf "$D"
