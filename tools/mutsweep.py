#!/venv/bin/python
"""Mutation sweep: tools/mutsweep.py <PROP[,PROP2]> <file-relative-to-repo> [--lines a-b[,c-d]] [--n 25] [--seed 0] [--out file.jsonl]

Generates single-token mutants (operator swaps, constant flips, dropped negations, off-by-one) of the given source file,
restricted to the given line ranges, samples --n of them, and for each one: copies /repo's working tree to a scratch directory
outside /repo and /verif, applies the mutant, checks that the module still imports, runs the quick check(s) with LITEX_ROOT
pointing at the copy and removes the copy. A mutant is KILLED when a check exits 1 (VIOLATION line), CRASH when the package no
longer imports, INCONCLUSIVE when every check exits 2 and none exits 1, SURVIVED when all exit 0. Survivors are either equivalent
mutants or holes in the workload / oracle: they are listed for reading, never counted as anything else.
Nothing is written under /repo; /verif only receives the --out report."""
import os, re, sys, json, random, shutil, subprocess, tempfile, argparse

VERIF = os.path.dirname(os.path.dirname(os.path.abspath(__file__)))
RULES = [
    (r" & ", " | "), (r" \| ", " & "), (r"==", "!="), (r"!=", "=="), (r" <= ", " < "), (r" >= ", " > "),
    (r" < ", " <= "), (r" > ", " >= "), (r" \+ 1\b", " - 1"), (r" - 1\b", " + 1"), (r"\.eq\(1\)", ".eq(0)"), (r"\.eq\(0\)", ".eq(1)"),
    (r"~", ""), (r"\bIf\(", "If(~"), (r" \+ ", " - "), (r" - ", " + "), (r"\b1\b", "0"), (r"\b0\b", "1"), (r"\b2\b", "3"),
    (r"NextValue\(([^,]+), ([^)]+)\)", r"NextValue(\1, \1)"), (r"\.last\b", ".first"), (r"\.first\b", ".last"),
    (r"\bvalid\b", "ready"), (r"\bready\b", "valid"), (r">> ", "<< "), (r"\[0\]", "[1]"), (r"-1\]", "-2]"),
]


def mutants(path, ranges):
    lines = open(path).read().split("\n")
    out = []
    for i, l in enumerate(lines):
        ln = i + 1
        if ranges and not any(a <= ln <= b for a, b in ranges):
            continue
        code = l.split("#")[0]
        if not code.strip() or code.strip().startswith(('"""', "'''", "import ", "from ", "class ", "def ", "assert", "raise", "@")):
            continue
        if "logger" in code or "print(" in code or "description" in code or "colorer" in code:
            continue
        for pat, rep in RULES:
            for mth in re.finditer(pat, code):
                new = code[:mth.start()] + mth.expand(rep) + code[mth.end():] + l[len(code):]
                if new != l:
                    out.append({"line": ln, "old": l.strip(), "new": new.strip(), "_full": new})
    return out


def main():
    ap = argparse.ArgumentParser()
    ap.add_argument("props")
    ap.add_argument("file")
    ap.add_argument("--lines", default="")
    ap.add_argument("--n", type=int, default=25)
    ap.add_argument("--seed", type=int, default=0)
    ap.add_argument("--out", default=None)
    ap.add_argument("--check-seed", default="0")
    a = ap.parse_args()
    props = a.props.split(",")
    ranges = [tuple(int(x) for x in r.split("-")) for r in a.lines.split(",") if r]
    src = os.path.join("/repo", a.file)
    ms = mutants(src, ranges)
    rng = random.Random("%s/%s/%d" % (a.file, a.lines, a.seed))
    rng.shuffle(ms)
    # at most 2 mutants per source line
    seen, pick = {}, []
    for m in ms:
        if seen.get(m["line"], 0) < 2:
            seen[m["line"]] = seen.get(m["line"], 0) + 1
            pick.append(m)
        if len(pick) >= a.n:
            break
    out = open(a.out, "a") if a.out else None
    tally = {}
    modname = a.file[:-3].replace("/", ".")
    for m in pick:
        d = tempfile.mkdtemp(prefix="mutsweep.", dir="/tmp")
        try:
            subprocess.run(["rsync", "-a", "--exclude", ".git", "--exclude", "*.vcd", "--exclude", "__pycache__", "/repo/", d + "/"], check=True)
            p = os.path.join(d, a.file)
            lines = open(p).read().split("\n")
            lines[m["line"] - 1] = m["_full"]
            open(p, "w").write("\n".join(lines))
            imp = subprocess.run(["/venv/bin/python", "-B", "-c", "import sys; sys.path.insert(0, %r); sys.path.insert(0, '/verif'); "
                                  "from lib import env; import importlib; importlib.import_module(%r)" % (d, modname)],
                                 env=dict(os.environ, LITEX_ROOT=d), capture_output=True, text=True, timeout=300, cwd=VERIF)
            verdict, keys = None, []
            if imp.returncode != 0:
                verdict = "CRASH"
            else:
                codes = []
                for pr in props:
                    r = subprocess.run(["./check", pr, "--no-evidence", "--seed", a.check_seed], env=dict(os.environ, LITEX_ROOT=d),
                                       capture_output=True, text=True, timeout=3000, cwd=VERIF)
                    codes.append(r.returncode)
                    keys += re.findall(r"mechanism=(\S+)", r.stdout)[:3]
                    if r.returncode == 1:
                        break
                verdict = "KILLED" if 1 in codes else ("INCONCLUSIVE" if 2 in codes else "SURVIVED")
        finally:
            shutil.rmtree(d, ignore_errors=True)
        tally[verdict] = tally.get(verdict, 0) + 1
        rec = {"file": a.file, "props": props, "line": m["line"], "old": m["old"], "new": m["new"], "verdict": verdict, "keys": keys[:4]}
        print("%-12s %s:%d  %s  ->  %s   %s" % (verdict, a.file, m["line"], m["old"][:70], m["new"][:70], ",".join(keys[:2])[:90]), flush=True)
        if out:
            out.write(json.dumps(rec) + "\n")
            out.flush()
    print("TALLY %s %s %s" % (a.file, a.lines, tally), flush=True)


main()
