#!/bin/sh
# tools/seed_setup.sh <PROP> : scratch worktree /tmp/seed_<PROP> (detached HEAD of /repo) + /tmp/seed_out_<PROP>/PROPERTY.txt (property text only)
# and, in PROPERTY.txt, the one-line summaries of the changes earlier rounds produced (so that a new change is about another mechanism).
P=$1
git -C /repo worktree remove --force /tmp/seed_$P 2>/dev/null; rm -rf /tmp/seed_out_$P /tmp/seed_$P
git -C /repo worktree add --detach /tmp/seed_$P HEAD >/dev/null 2>&1 || exit 1
mkdir -p /tmp/seed_out_$P
cp /verif/tools/seed_prompt.txt /tmp/seed_prompt.txt
/venv/bin/python - "$P" <<'PY'
import json, sys, glob, textwrap
pid = sys.argv[1]
for l in open('/verif/properties.jsonl'):
    p = json.loads(l)
    if p['id'] == pid:
        break
out = ["Property %s: %s" % (p['id'], p['title']), "", p['statement'], "", "Quantifier: %s" % p.get('quantifier', ''), "",
       "Why the existing tests cannot settle it: %s" % p.get('why_tests_cant', ''), "", "Code it is anchored in:"]
for f in p['anchors']['files']:
    out.append("  " + f)
for k in ('state', 'mechanism'):
    for a in p['anchors'].get(k, []):
        out.append("  [%s] %s (%s)" % (k, a.get('name'), a.get('where')))
prev = []
for m in sorted(glob.glob('/verif/seeded/%s-*/meta.json' % pid)):
    try:
        prev.append(json.load(open(m)).get('summary', ''))
    except Exception:
        pass
if prev:
    out += ["", "Changes already produced by other engineers for this property (pick a DIFFERENT component and mechanism; "
            "a different class/function of the anchored code, ideally one covering another clause of the statement):"]
    out += ["  - " + textwrap.shorten(s, 300) for s in prev]
open('/tmp/seed_out_%s/PROPERTY.txt' % pid, 'w').write("\n".join(out) + "\n")
PY
echo "ready: /tmp/seed_$P /tmp/seed_out_$P"
