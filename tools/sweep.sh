#!/bin/sh
# tools/sweep.sh "<props>" "<seeds>" [tier]: runs checks over several seeds without touching evidence.
cd "$(dirname "$0")/.." || exit 1
for p in $1; do for s in $2; do
  ./check $p --seed $s --tier ${3:-quick} --no-evidence 2>&1 | grep -E "^VIOLATION|^INCONCLUSIVE|tier=" | cut -c1-300
done; done
