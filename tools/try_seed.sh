#!/bin/sh
# tools/try_seed.sh <PROP> [extra check args]: confirms the demonstration of /tmp/seed_out_<PROP> (exit 0 on /repo, 1 on a scratch copy of
# /repo's current tree with patch.diff applied), then runs ./check <PROP> against that scratch copy. The copy is removed afterwards.
P=$1; shift
O=/tmp/seed_out_$P
D=$(mktemp -d /tmp/seedtry.XXXXXX)
rsync -a --exclude .git --exclude '*.vcd' --exclude __pycache__ /repo/ "$D/"
(cd "$D" && patch -s -p1 < $O/patch.diff) || { echo "PATCH DID NOT APPLY"; rm -rf "$D"; exit 3; }
(cd /tmp && timeout 1200 /venv/bin/python $O/demo.py /repo > /tmp/demo_${P}_clean.log 2>&1); echo "demo on clean tree: exit $?"
(cd /tmp && timeout 1200 /venv/bin/python $O/demo.py "$D" > /tmp/demo_${P}_patched.log 2>&1); echo "demo on patched tree: exit $?"
cd /verif && LITEX_ROOT="$D" ./check "$P" --no-evidence "$@" > /tmp/chk_$P.log 2>&1; echo "check exit $? : $(grep -c '^VIOLATION' /tmp/chk_$P.log) violation keys"
grep -A1 "^VIOLATION" /tmp/chk_$P.log | grep mechanism | cut -c1-260 | head -6
grep -E "tier=|^INCONCLUSIVE" /tmp/chk_$P.log | cut -c1-200 | head -4
rm -rf "$D"
